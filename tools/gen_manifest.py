#!/usr/bin/env python3
"""Regenerates /verif/MANIFEST.json from the table below (single source of truth)."""
import json, os, subprocess, sys

HERE = os.path.dirname(os.path.dirname(os.path.abspath(__file__)))

# id -> (engine, level, technique, level_text, level_note, design_ref)
HIST_NOTE = "trusts the monitor (harness/src/hist/monitor.rs) as the reading of the statement, poll(2) and /proc fdinfo as kernel ground truth, and the hook commit's read-only statistics; sources are tainted (not judged) after documented misuse; never shows absence"
def hist(text, tech="model-based (stateful) property-based testing: generated operation histories incl. in-callback programs, trace-checking reference monitor, proptest shrinking; thorough tier adds a coverage-guided libFuzzer campaign (cargo-fuzz, ASan) whose bytes are decoded into the same history grammar and judged by the same monitor in-target"):
    return ("hist", "exploration", tech, text, HIST_NOTE, "DESIGN.md sections 3.1-3.3 and 4")

CHECKS = {
    "C01": hist("Every callback of every generated history is judged: live registration, own unconsumed cause (ping count, channel FIFO head, live timer arming, poll(2)-confirmed fd readiness under the interest registered), own registration key. Search over histories is the natural level for a statement quantified over histories; absence is not shown. A bounded-exhaustive sub-check walks one slot through up to 65535 occupants (also inside one dispatch) and compares every token handed out with the first, stale one."),
    "C02": hist("Obligation snapshot at dispatch start (pings, queued messages / closed channels, expired timers, poll(2) readiness per interest and trigger mode) must be served by an Ok dispatch unless waived by an in-dispatch mutation; one-shot upper bound and edge lower bound over the history. Causes produced by another thread while the loop dispatches are covered by re-running the schedule families of C03/C04/C10 and keeping their lost-wake-up rules (sub-checks xthread.*).", "model-based (stateful) property-based testing: generated operation histories incl. in-callback programs, trace-checking reference monitor, proptest shrinking; plus generated thread schedules (cooperative scheduler over the yield hook) for cross-thread causes; thorough tier adds a coverage-guided libFuzzer campaign (cargo-fuzz, ASan) over the history grammar"),
    "C05": hist("Per-arming model of every timer: never early, event == current deadline, deadline order within a dispatch, window rule for 'first dispatch at or after the deadline', cancelled armings never fire, heap length == live armings after every step (statistics hook). Real monotonic clock; only order-insensitive window arguments are used."),
    "C06": hist("All removal paths, slot reuse, every stale token exercised; register/unregister call counts of instrumented sources show that dead tokens touch nothing; drop counters of sources, callbacks and idles are exactly one at the end; Dispatcher::into_source_inner must succeed after removal; loop/handle drop order both ways."),
    "C07": hist("No callback between disable and the next successful enable (also for events already in the batch), token stays valid, causes pending at enable are obligated afterwards, no registration call on any other source."),
    "C08": hist("Every LoopHandle operation issued from generated callback / idle programs (nested to depth 3) against the running source, batch neighbours, stale tokens and fresh inserts: no panic (caught at the dispatch boundary, attributed by location) and the same model effect as outside a dispatch."),
    "C09": hist("Instrumented sources count register/reregister/unregister calls; after each process_events return the effective post-action (explicit over deferred) must show exactly its calls on exactly that source and none on any other, including after Err returns and slot reuse inside the callback; the deferred cell is observed empty between events (statistics hook)."),
    "C13": hist("Idle callbacks: exactly once, after all source callbacks of the first Ok dispatch, insertion order, idle-of-idle deferred to the next dispatch, cancelled never, failed dispatch runs none, closures dropped exactly once. The idle rule is also judged under run() / block_on() (deterministic in-loop family with a reference model: idles inserted by idles or by the per-iteration closure belong to the next iteration)."),
    "C14": hist("Lifecycle probes with several ping sub-sources and optional synthetic events: one before_sleep then one before_handle_events per live lifecycle source before any event processing, synthetic event delivered in the same dispatch and never shown to the iterator, iterator covers exactly own real events, lifecycle list == enabled lifecycle sources after every step incl. failed registrations. A timing family over a lifecycle source with a Timer child and slow hooks compares iterator and processed events exactly."),
    "C15": ("hist", "fault_enumeration", "fault enumeration: every fault site (probe register sub-step / reregister / unregister / process_events / before_sleep call, in execution order) of each generated fault-free base history is failed in a run of its own; plus sampled fault injection inside random histories (scripted Err returns, bad fds, composites with a rejected child); trace-checking reference monitor; thorough tier adds a coverage-guided libFuzzer campaign over the same grammar and oracle", "Faults are injected at generated registration steps and event-processing calls of generated histories which then continue; the failing call must return its error, hand the source back, leave slots (occupied count, and list length never above the number of slots ever needed at once) / lifecycle list / kernel table as before, never make a later dispatch panic, and every cause pending before an Err must still be served afterwards. Sub-check 'positions' enumerates all fault positions of every generated base history (exhaustive per base history; the base histories themselves are sampled); sub-check 'hist' samples positions inside longer random histories.", HIST_NOTE, "DESIGN.md section 4 C15"),
    "C16": hist("After every step the kernel's epoll table (/proc/self/fdinfo) minus polling's own entries must equal the model's set of enabled fd registrations: keys for all, interest/mode bits and fd for Generic sources; released fds are re-inserted; several Generic sources may share one (borrowed) fd, at most one of them registered at a time; after a successful (re)registration of a composite every kept child holds a sub-token.", "model-based property-based testing with a kernel oracle (/proc/self/fdinfo epoll table) after every generated step; thorough tier adds a coverage-guided libFuzzer campaign over the same history grammar and oracle"),
    "C03": ("sched", "exploration", "schedule exploration: generated thread interleavings at yield-site granularity (cooperative scheduler over the hook, proptest-generated + bounded-exhaustive DFS schedules) plus a free-running stress sub-check (real concurrency, CLOCK_MONOTONIC oracle) and single-thread history PBT; logical-clock oracle", "Actor threads with ping/clone/drop programs against a dispatching loop thread; the interleaving of every eventfd write, drain read and handle drop is the generated input; every ping served by a later callback, at most one callback per dispatch, no callback without a ping that can have landed after the previous drain, clean self-removal when the last handle goes, no spinning afterwards. Plus ping histories through the history machine.", "schedules are explored at the granularity of the hook's yield sites on x86-TSO with the real atomics; weaker memory orderings and preemption inside a site-free region are out of reach; blocked threads are detected through /proc", "DESIGN.md sections 3.4 and 4 C03"),
    "C04": ("sched", "exploration", "schedule exploration (generated interleavings of sender threads and the loop at enqueue / wake / wake-on-drop / try_recv / re-wake sites) + free-running stress sub-check + history PBT + batch-limit family; per-sender FIFO reference", "Per sender delivered == sent-Ok in order exactly once, one Closed after everything and only after every sender is gone, nothing after it, settle points show that no message stays queued without a pending wake-up, blocking sends complete while the loop dispatches (blocked senders detected via /proc, decided by state), queue lengths around the 1024 batch limit drain without external wake-up. Known finding F6 (sync_channel(0)) is listed and steered around.", "as C03; a stranded sender is decided by state (8 further dispatches, every unfinished sender asleep in the kernel, nothing delivered), never by a timeout alone", "DESIGN.md sections 3.4 and 4 C04"),
    "C10": ("sched", "exploration", "schedule exploration (generated interleavings of waker threads against the executor's enqueue / flag swap / eventfd write / flag clear / dequeue / re-wake / drop sites, incl. mid-poll) + free-running stress sub-check + executor batch-limit family + stream burst family + single-thread histories with Executor sources + scripted StreamSource", "Scripted non-Send futures: every scheduled future polled, a poll after every wake of a pending task, polls and drops only on the loop thread, each Ready(v) delivered exactly once, every future dropped exactly once when the executor goes (checked before the Scheduler goes), ExecutorDestroyed afterwards; 0..3100 ready tasks drain over consecutive dispatches without external wake-up, scheduling from callbacks and futures; stream items in order, one None, then removal. Known finding F7 (wake in flight while the executor is dropped) is listed and steered around.", "as C03; async-task's own atomics have no yield sites; windows that exist only in changed code have no site either", "DESIGN.md sections 3.4 and 4 C10"),
    "C11": ("sched", "exploration", "schedule exploration (generated interleavings of stop/wakeup/waker.wake against run()/block_on() at every yield site, incl. mid-poll) + bounded-exhaustive DFS of tiny configurations + deterministic in-loop family (stop/wake/complete/idle issued from callbacks on the loop thread) judged against a reference model of run()/block_on()", "Lost wake-ups and lost stops are decided by state: the loop thread provably asleep in the poller with an unserved wake-up / wake over 300 scheduling rounds; stop visible at the loop condition must end the loop; run/block_on return values need a cause; once stop() has returned, a loop thread that evaluates its condition afterwards must leave (run: no further iteration; block_on: None, no further poll). In-loop family: results, poll counts, completed iterations, idles and per-iteration closure runs equal the reference model.", "as C03; 'promptly' is never measured as a duration", "DESIGN.md sections 3.4 and 4 C11"),
    "C12": ("timing", "exploration", "property-based testing over dispatch configurations on the real monotonic clock: exact lower bound, 3-times-confirmed upper bound, dead-peer sources, helper-thread wake-ups", "Configurations of timeout class x timer sets x idle/dead-peer sources x optional helper thread; with no event and no wake-up the dispatch must last at least min(timeout, earliest deadline - t_before) exactly (monotonic clock argument), a limiting timer must have fired, zero timeout never blocks, None waits for the helper; oversleep beyond 60 ms only counts when it repeats 3 times.", "lower bound relies on CLOCK_MONOTONIC and hrtimers never firing early; upper bound detects systematic errors only; module written by a sub-agent, reviewed", "DESIGN.md section 4 C12"),
    "C17": ("asyncio", "exploration", "property-based testing of Async adapter sessions (payload, chunk plans, send-buffer sizes, topologies, dispatch plans) with a byte round-trip oracle, state-based stuck detection and fcntl flag checks; thorough tier adds a libFuzzer campaign over the same session grammar", "Five topologies over a socketpair driven by calloop's executor; bytes received == bytes sent in order; a task pending while poll(2) says its fd is ready and dispatches wake nothing is a lost wake (decided by state, 1+3 dispatches); O_NONBLOCK set while adapted and restored afterwards.", "spurious wake-ups are allowed; module written by a sub-agent, reviewed", "DESIGN.md section 4 C17"),
    "C18": ("transient", "exploration", "model-based property-based testing of TransientSource call sequences + bounded-exhaustive enumeration of all protocol-conforming sequences (thorough: up to length 6), kernel epoll table and timer heap as ground truth; thorough tier adds a libFuzzer campaign over the same alphabet", "Instrumented fd and timer children under a top-level and a composite parent; reference machine per child (Fresh/Kept/Disabled/Gone); after every step child registration flag == kernel table / timer heap == model; no double register/unregister, no drop while registered, forwarding only from the current child, only Continue/Reregister returned.", "only protocol-conforming sequences are generated (the docs warn about leaks otherwise); module written by a sub-agent, reviewed", "DESIGN.md section 4 C18"),
    "C19": ("signals", "exploration", "model-based property-based testing of signal-mask histories in a single-threaded process (proptest, reference model of mask / pending sets / handler counts)", "Histories of new/add/remove/set/raise/insert/dispatch/drop; after every op the real thread mask, sigpending() and counting handlers are compared with the model; dispatch results compared with pending configured instances incl. siginfo fields.", "single-threaded check process; Linux standard-signal semantics as stated in the module header", "DESIGN.md section 4 C19"),
    "C20": ("pure", "exploration",
            "property-based testing (proptest) over (id,generation,sub) triples + bounded-exhaustive boundary planes + kernel epoll-table cross-check; the arithmetic-sensitive cases run a second time in a build without overflow checks and debug assertions (cargo profile ship); thorough tier adds a libFuzzer campaign",
            "Random triples/pairs/raw keys (round trip, injectivity, field isolation, reserved key, bump/same_source laws), every generation x sub-id of 7 boundary slot indices (thorough: all 2^32 pairs per id; quick: sub-ids at stride 61), token factories up to and beyond 65536 requests, real loops with up to 131073 reuses of one slot compared with /proc fdinfo. Arithmetic over a finite domain: search plus enumeration is the natural level.",
            "trusts that the verif accessors are thin wrappers over TokenInner (hook commit) and that fdinfo reports epoll data faithfully; ids between boundary values are sampled, not enumerated",
            "DESIGN.md section 4 C20"),
}

NOT_YET = {
}

def main():
    props = [json.loads(l) for l in open(os.path.join(HERE, "properties.jsonl"))]
    ids = [p["id"] for p in props]
    repo_commits = []
    try:
        out = subprocess.check_output(["git", "-C", "/repo", "log", "--format=%H %s"], text=True)
        for line in out.splitlines():
            h, _, s = line.partition(" ")
            if "verif_hooks" in s or s.startswith("hooks:"):
                repo_commits.append(h)
    except Exception:
        pass
    checks = []
    for i in ids:
        if i not in CHECKS:
            continue
        engine, level, technique, text, note, ref = CHECKS[i]
        checks.append({
            "property_id": i,
            "quick_cmd": f"bin/check {i} quick",
            "thorough_cmd": f"bin/check {i} thorough",
            "evidence_file": f"/verif/evidence/{i}.json",
            "replay_cmd_template": f"bin/check {i} --replay {{path}}",
            "engine": engine,
            "level_claimed": {"category": level, "text": text, "design_ref": ref},
            "level_note": note,
            "technique": technique,
        })
    na = []
    for i in ids:
        if i not in CHECKS:
            na.append({"property_id": i, "reason": NOT_YET.get(i, "check not built yet in this round (work in progress; the design in DESIGN.md claims it) - no verdict is given for it")})
    manifest = {
        "version": 1,
        "setup_cmd": "cd /verif/harness && CARGO_NET_OFFLINE=true CARGO_TARGET_DIR=/verif/.target cargo build --release --offline",
        "hooks": {
            "guard": "cargo feature verif_hooks",
            "enable": "harness/Cargo.toml depends on calloop by path (/repo) with features verif_hooks executor block_on signals stream futures-io; every bin/check invocation runs cargo build, so the harness is rebuilt from /repo's working tree",
            "baseline_off_cmd": "cd /repo && cargo test --workspace --no-fail-fast --offline",
            "source_commits": repo_commits,
            "add_only": True,
        },
        "engines": [
            {"name": "pure", "path": "harness/src/props", "serves_properties": ["C20"], "kind_free_text": "proptest strategies over inputs + bounded-exhaustive enumeration, run from the check binary with a fixed seed"},
            {"name": "hist", "path": "harness/src/hist", "serves_properties": [i for i in ids if i in CHECKS and CHECKS[i][0] == "hist"], "kind_free_text": "single-thread history machine: interpreter over a real EventLoop with instrumented sources (world.rs) + trace-checking reference monitor (monitor.rs), proptest generation and shrinking, JSON replays"},
            {"name": "sched", "path": "harness/src/sched.rs", "serves_properties": [i for i in ids if i in CHECKS and CHECKS[i][0] == "sched"], "kind_free_text": "deterministic cooperative scheduler over the verif_hooks yield sites: real OS threads, one advanced at a time by a generated schedule, kernel-blocked threads detected via /proc; random (bursty) schedules + stateless DFS"},
            {"name": "timing", "path": "harness/src/props/c12.rs", "serves_properties": ["C12"], "kind_free_text": "dispatch-duration configurations on the real clock"},
            {"name": "asyncio", "path": "harness/src/props/c17.rs", "serves_properties": ["C17"], "kind_free_text": "Async adapter session interpreter over socketpairs and calloop's executor"},
            {"name": "transient", "path": "harness/src/props/c18.rs", "serves_properties": ["C18"], "kind_free_text": "TransientSource sequence machine with reference model and exhaustive enumeration"},
            {"name": "fuzz", "path": "harness/src/fuzz.rs + fuzz/", "serves_properties": [i for i in ids if i in CHECKS and (CHECKS[i][0] in ("hist", "asyncio", "transient", "pure"))], "kind_free_text": "one cargo-fuzz/libFuzzer target (ASan + SanCov over calloop and the harness) for every single-threaded, input-determined sub-check: VERIF_FUZZ_PROP selects the property, input bytes are decoded with arbitrary::Unstructured into that sub-check's case grammar (any byte string is a valid case), the semantic oracle runs in-target, violations are written as JSON replays and re-confirmed in the check process; run by the thorough tier only"},
            {"name": "signals", "path": "harness/src/props/c19.rs", "serves_properties": ["C19"], "kind_free_text": "single-threaded signal-history machine with a mask/pending/handler model"},
        ],
        "checks": checks,
        "notes": "All checks: exit 0 held / exit 1 + VIOLATION line / exit 2 infrastructure problem (never a violation). Known findings: /verif/known_findings.json. VERIF_SEED selects the proptest seed (default 1). The thorough tier of C01 C02 C05-C09 C13-C18 C20 additionally builds and runs the libFuzzer target (cargo +nightly fuzz, offline); VERIF_NO_FUZZ=1 skips that stage.",
        "not_applicable": na,
    }
    json.dump(manifest, open(os.path.join(HERE, "MANIFEST.json"), "w"), indent=1)
    print("wrote MANIFEST.json:", len(checks), "checks,", len(na), "not claimed")

if __name__ == "__main__":
    main()
