#!/usr/bin/env python3
"""Build the prompts of a seed round: tools/seed_prompts/Cxx.txt + round notes + the ideas already taken
(summaries of seeded/*/meta.json for that property).  usage: mk_round_prompts.py <round-number> <ordinal-word> <outdir>"""
import json, glob, os, sys, re
rnd, word, out = sys.argv[1], sys.argv[2], sys.argv[3]
root = os.path.dirname(os.path.dirname(os.path.abspath(__file__)))
os.makedirs(out, exist_ok=True)
for i in range(1, 21):
    pid = f"C{i:02d}"
    t = open(f"{root}/tools/seed_prompts/{pid}.txt").read()
    t = t.replace(f"/tmp/seed_c{i:02d}", f"/tmp/seed{rnd}_c{i:02d}")
    taken = []
    for m in sorted(glob.glob(f"{root}/seeded/*/meta.json")):
        try:
            j = json.load(open(m))
        except Exception:
            continue
        if j.get("property") == pid:
            taken.append(j.get("summary", "").strip())
    notes = f"""

## Additional notes for this round

* Use `git apply -R <patch>` / `git apply <patch>` (not `git stash`) to flip between the two runs of the demo.
* The crate sets `autotests = false`: a demo under tests/ needs a `[[test]] name = "seed_demo"` entry in Cargo.toml (in your worktree only). Do not use `calloop::verif` / the `verif_hooks` feature in the demo.
* Stay inside the domain the statement quantifies over (its preconditions, "absent failures", "follows the documented protocol" clauses): a change that only shows outside it is of no use to me. In particular these usages are OUTSIDE every statement and of no use: calling LoopHandle::disable/update/remove while the caller itself holds a Dispatcher::as_source_ref()/as_source_mut() guard on that source; update() of a disabled source; enable() of a source that is not disabled; an idle callback cancelling its own Idle handle; more than 65535 reuses of one slot.
* This is the {word} round: the obvious and the moderately obscure sites are used up (see the list). Read the statement clause by clause and find a clause, a combination of two features, an API entry point, a source kind, a build profile, a Drop order, a re-entrancy path or a boundary value that none of the ideas below exercises. Think about what a verification harness would most plausibly NOT generate although it is legitimate usage.
* The demo must fail with the change and pass without it in the SAME build profile; say in demo_howto.txt which profile is needed if it is not the default one.
* If, while reading the code, you notice behaviour of the UNCHANGED library that itself seems to contradict the statement (inside its domain), say so at the end of your final message under a heading "Baseline observations", but still deliver a seeded change.
* Ideas ALREADY TAKEN in earlier rounds - do something different in mechanism and code site:
"""
    for k, s in enumerate(taken, 1):
        notes += f"  ({k}) {s}\n"
    open(f"{out}/{pid}.txt", "w").write(t + notes)
print("written", out)
