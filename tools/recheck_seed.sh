#!/bin/bash
# usage: tools/recheck_seed.sh <seeded-name> <Cxx> [<Cyy>...]   re-runs quick checks against a stored seeded change
# in an isolated scratch copy (see eval_seed.sh); appends DETECT lines to its confirmation.txt
NAME="$1"; shift
DEST=/verif/seeded/$NAME; LOG=$DEST/confirmation.txt
S=/tmp/recheck_iso_$NAME
rm -rf $S; mkdir -p $S
git -C /repo worktree prune
git -C /repo worktree add --detach $S/repo >/dev/null 2>&1 || { echo "worktree failed"; exit 2; }
( cd $S/repo && git apply "$DEST/patch.diff" ) || { echo "patch does not apply"; git -C /repo worktree remove --force $S/repo; exit 3; }
rsync -a --exclude .target --exclude .git --exclude seeded --exclude fuzz/target --exclude fuzz/corpus-work /verif/ $S/verif/
sed -i "s#path = \"/repo\"#path = \"$S/repo\"#" $S/verif/harness/Cargo.toml
for p in "$@"; do
  t0=$(date +%s.%N)
  out=$(cd $S/verif && VERIF_DIR=$S/verif CARGO_TARGET_DIR=/tmp/evalseed_iso_target${EVAL_LANE:-} flock /tmp/evalseed_iso${EVAL_LANE:-}.lock bin/check $p quick 2>&1); code=$?
  t1=$(date +%s.%N)
  rule=$(echo "$out" | grep -o "rule=[A-Za-z0-9_.]* sig=[^ ]*" | head -1)
  printf "DETECT %-28s %s exit=%d %s (%.1fs, isolated copy, re-check at %s)\n" "$NAME" "$p" "$code" "$rule" "$(echo "$t1 - $t0" | bc)" "$(git -C /verif rev-parse --short HEAD)+" | tee -a "$LOG"
  if [ $code -eq 2 ]; then echo "$out" | tail -3 | tee -a "$LOG"; fi
  rm -f $S/verif/replays/*/viol-*.json
done
cd /; git -C /repo worktree remove --force $S/repo; rm -rf $S
