#!/usr/bin/env python3
"""Builds section 10 of DESIGN.md (sensitivity: seeded changes and mutants) from seeded/*/ and mutants/RESULTS*.txt."""
import json, glob, os, re
HERE = os.path.dirname(os.path.dirname(os.path.abspath(__file__)))
out = []
out.append("## 10. Sensitivity: which checks catch which changes\n")
out.append("### 10.1 Independently seeded changes (sub-agents, property text only)\n")
out.append("Every change below compiles, passes the repository's 55 tests, and comes with a demonstration that fails with it and passes without it (all re-confirmed by `tools/eval_seed.sh` in a scratch worktree; logs in `seeded/<name>/confirmation.txt`). `first` = verdict of the quick check(s) as they were when the change arrived; `now` = after the strengthening named in 10.2 (re-run by `tools/recheck_seed.sh`). `exit=1 rule` = caught with that oracle rule; `miss` = quick check stayed green. The `now` column is the verdict of the final harness (`tools/recheck_all_parallel.sh`, all stored changes re-run against the quick check of their own property at the end; the timing-sensitive ones - C12's, `c04g`, `c14f` - once more on the idle machine after the thorough runs, where a loaded machine had left `c04g` and `c14f` inconclusive, exit 2). Six older patches (`c01c`, `c04c`, `c04d`, `c04e`, `c08d`, `c10_notified_cleared_after_drain`) no longer apply to the tree since the repairs of F17 / F18 rewrote the lines they change; their `now` is the last verdict from when they applied. `c06d` is no longer detected because the repair of F17 removed the failing `unregister` it needs; `c04m` lives entirely in the corner C04 steers around while F6 is open; `c18c` is kept as an example of a change that only shows outside the documented protocol.\n")
out.append("| seeded change | property | what it does / what it needs | first | now |")
out.append("|---|---|---|---|---|")
rows = []
for d in sorted(glob.glob(os.path.join(HERE, "seeded", "*"))):
    name = os.path.basename(d)
    try:
        m = json.load(open(os.path.join(d, "meta.json")))
    except Exception:
        continue
    prop = m.get("property", name[:3].upper())
    summ = m.get("summary", "").replace("|", "/").replace("\n", " ")
    needs = m.get("needs", "").replace("|", "/").replace("\n", " ")
    if len(summ) > 260: summ = summ[:257] + "..."
    if len(needs) > 200: needs = needs[:197] + "..."
    det = {}
    order = []
    try:
        for line in open(os.path.join(d, "confirmation.txt")):
            mm = re.match(r"DETECT\s+\S+\s+(C\d\d)\s+exit=(\d+)\s*(rule=(\S+))?", line)
            if mm:
                p, code, rule = mm.group(1), mm.group(2), mm.group(4)
                det.setdefault(p, []).append((code, rule))
                if p not in order: order.append(p)
    except Exception:
        pass
    def fmt(i):
        parts = []
        for p in order:
            l = det[p]
            code, rule = l[i] if i == 0 else l[-1]
            parts.append(f"{p}: " + (f"{rule}" if code == "1" else ("miss" if code == "0" else f"exit {code}")))
        return "; ".join(parts)
    rows.append((prop, name, f"| `{name}` | {prop} | {summ} **Needs:** {needs} | {fmt(0)} | {fmt(-1)} |"))
for _, _, r in sorted(rows):
    out.append(r)
n = len(rows)
out.append("")
out.append(f"{n} seeded changes stored. ")
out.append("\n### 10.3 Mutants written for this framework (`mutants/`)\n")
out.append("`suite` = result of the repository's own tests on the mutant where it was run (mutants that fail the suite still show that the check is sensitive, but are not 'realistic changes that pass the tests'). Verdict of the property's quick check in an isolated scratch copy (`tools/sweep_mutants.sh`).\n")
out.append("| mutant | verdict | suite |")
out.append("|---|---|---|")
res = {}
for f in sorted(glob.glob(os.path.join(HERE, "mutants", "RESULTS*.txt"))):
    for line in open(f):
        parts = line.split()
        if len(parts) < 3: continue
        name = parts[0]
        if "DOES-NOT-APPLY" in line:
            res.setdefault(name, ("does not apply", "")); continue
        code = re.search(r"exit=(\d+)", line); rule = re.search(r"rule=(\S+)", line); suite = re.search(r"suite=\[(.*?)\]", line)
        v = (f"caught: {rule.group(1)}" if code and code.group(1) == "1" and rule else ("MISSED" if code and code.group(1) == "0" else f"exit {code.group(1) if code else '?'}"))
        res[name] = (v, suite.group(1) if suite else res.get(name, ("", ""))[1])
for name in sorted(res):
    v, suite = res[name]
    out.append(f"| `{name}` | {v} | {suite} |")
caught = sum(1 for v, _ in res.values() if v.startswith("caught"))
out.append("")
out.append(f"{caught} of {len(res)} mutants caught by the quick check of their property.")
try:
    out.append("")
    out.append(open(os.path.join(HERE, "mutants", "NOTES.md")).read())
except Exception:
    pass
open(os.path.join(HERE, "tools", "section10.md"), "w").write("\n".join(out) + "\n")
print("\n".join(out)[:3000])
