#!/usr/bin/env python3
"""Replaces the table of DESIGN.md section 8 by the output of tools/cost_table.py (argument: file holding that table)."""
import re, sys
p = "/verif/DESIGN.md"
s = open(p).read()
tab = open(sys.argv[1]).read().strip()
i = s.index("## 8. Cost summary")
j = s.index("A cold harness build", i)
head = """## 8. Cost summary (as built, this box, warm build)

Quick column: the evidence files committed with this tree (`tools/final_regen.sh`, one check at a time on an otherwise
idle machine). Thorough column: the final validation of the frozen harness - every thorough check was run once on the
unchanged tree through `vp run` (several runs side by side, so the wall times are those of a loaded 16-core machine; the
history checks are dominated by their libFuzzer stage, which also takes about 15 min on the idle machine (C08 alone:
1 073 s), the schedule checks by their enumerations, which are 2-3 times faster alone; C03 / C10 / C11 were run again after the watchdog correction of section 9); all 20
ended with exit 0 (C01, C04, C10 printing their KNOWN-FINDING line). The libFuzzer part is 16 jobs x 150 000 runs for
the history properties (bytes decoded into the history grammar, judged by the same monitor in-target).

"""
s = s[:i] + head + tab + "\n\n" + s[j:]
open(p, "w").write(s)
print("section 8 updated")
